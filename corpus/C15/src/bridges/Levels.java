package bridges;
// bridges inherited through several levels: C gets two bridges for the same delegate
class LA<T> { T get() { return null; } void set(T t) {} }
class LB<T extends Number> extends LA<T> { @Override T get() { return null; } @Override void set(T t) {} }
class LC extends LB<Integer> { @Override Integer get() { return 1; } @Override void set(Integer t) {} }
class LD extends LC { @Override Integer get() { return 2; } }
